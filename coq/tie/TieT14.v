(* Level-2 tie for the phase sequence of ScenarioGenerator.generate (static file, re-checked against the
   regenerated gen/TrPhases.v).  `interp` runs a list of phases the way the Python method does: each phase
   reads what earlier phases stored on the generator object (a phase that finds its input missing raises:
   crash 90), drawing phases thread the one draw stream in the order of the list, and the scenario is
   assembled at the end.  The lemma: interpreting the regenerated list is the model's `generate`, for every
   parameter set and every draw stream; and no drawing phase runs before the seed is applied. *)
From Coq Require Import ZArith List Bool.
From NasimV Require Import Base Scenario Gen.
From NasimV.gen Require Import TrPhases.
Import ListNotations.

Record acc := mkAcc {
  a_sub : option (list nat); a_topo : bool; a_bounds : option (nat * nat);
  a_os : bool; a_srv : bool; a_proc : bool;
  a_ex : option (list edef); a_pe : option (list pdef); a_sens : option (list (addr * Z));
  a_base : bool; a_disc : bool;
  a_hosts0 : option (list (addr * hcfg)); a_hosts : option (list (addr * hcfg));
  a_fw : option (list (addr * list nat)) }.

Definition acc0 : acc := mkAcc None false None false false false None None None false false None None None.

Definition missing {A} : M A := crash 90.

Definition finish (p : gparams) (a : acc) : M scenario :=
  match a_sub a, a_topo a, a_bounds a, a_ex a, a_pe a, a_sens a, a_hosts a, a_fw a with
  | Some subnets, true, Some bounds, Some ex, Some pe, Some sens, Some hosts, Some fw =>
      if a_os a && a_srv a && a_proc a && a_base a && a_disc a then
        ret (mkSc subnets (gen_topology (length subnets)) (g_nos p) (g_nsrv p) (g_nproc p) ex pe
                  (g_ssc p) (g_osc p) (g_subc p) (g_psc p) fw
                  (map (fun q => (fst q,
                                  mkCfg (onehot_b (g_nos p) (hc_os (snd q))) (hc_srv (snd q)) (hc_proc (snd q))
                                        (match assoc (fst q) sens with Some v => v | None => g_base_value p end)
                                        (g_dvalue p) [])) hosts)
                  sens (g_limit p) bounds)
      else missing
  | _, _, _, _, _, _, _, _ => missing
  end.

Fixpoint interp (p : gparams) (phs : list phase) (a : acc) : M scenario :=
  match phs with
  | [] => finish p a
  | ph :: r =>
    match ph with
    | PhSubnets => interp p r (mkAcc (Some (gen_subnets (g_hosts p))) (a_topo a) (a_bounds a) (a_os a) (a_srv a) (a_proc a)
                                     (a_ex a) (a_pe a) (a_sens a) (a_base a) (a_disc a) (a_hosts0 a) (a_hosts a) (a_fw a))
    | PhTopology =>
        match a_sub a with
        | Some _ => interp p r (mkAcc (a_sub a) true (a_bounds a) (a_os a) (a_srv a) (a_proc a)
                                      (a_ex a) (a_pe a) (a_sens a) (a_base a) (a_disc a) (a_hosts0 a) (a_hosts a) (a_fw a))
        | None => missing
        end
    | PhBounds =>
        match a_sub a with
        | Some subnets =>
            let n := length subnets in
            let bounds := match g_bounds p with Some b => b | None => (n, maxl subnets) end in
            if negb (Nat.leb n (fst bounds) && Nat.leb (maxl subnets) (snd bounds)) then crash 2 else
            interp p r (mkAcc (a_sub a) (a_topo a) (Some bounds) (a_os a) (a_srv a) (a_proc a)
                              (a_ex a) (a_pe a) (a_sens a) (a_base a) (a_disc a) (a_hosts0 a) (a_hosts a) (a_fw a))
        | None => missing
        end
    | PhOs => interp p r (mkAcc (a_sub a) (a_topo a) (a_bounds a) true (a_srv a) (a_proc a)
                                (a_ex a) (a_pe a) (a_sens a) (a_base a) (a_disc a) (a_hosts0 a) (a_hosts a) (a_fw a))
    | PhServices => interp p r (mkAcc (a_sub a) (a_topo a) (a_bounds a) (a_os a) true (a_proc a)
                                      (a_ex a) (a_pe a) (a_sens a) (a_base a) (a_disc a) (a_hosts0 a) (a_hosts a) (a_fw a))
    | PhProcesses => interp p r (mkAcc (a_sub a) (a_topo a) (a_bounds a) (a_os a) (a_srv a) true
                                       (a_ex a) (a_pe a) (a_sens a) (a_base a) (a_disc a) (a_hosts0 a) (a_hosts a) (a_fw a))
    | PhExploits =>
        if a_os a && a_srv a then
          let! ex := gen_exploits p in
          interp p r (mkAcc (a_sub a) (a_topo a) (a_bounds a) (a_os a) (a_srv a) (a_proc a)
                            (Some ex) (a_pe a) (a_sens a) (a_base a) (a_disc a) (a_hosts0 a) (a_hosts a) (a_fw a))
        else missing
    | PhPrivescs =>
        if a_os a && a_proc a then
          let! pe := gen_privescs p in
          interp p r (mkAcc (a_sub a) (a_topo a) (a_bounds a) (a_os a) (a_srv a) (a_proc a)
                            (a_ex a) (Some pe) (a_sens a) (a_base a) (a_disc a) (a_hosts0 a) (a_hosts a) (a_fw a))
        else missing
    | PhSensitive =>
        match a_sub a with
        | Some subnets =>
            let! sens := gen_sensitive p subnets in
            interp p r (mkAcc (a_sub a) (a_topo a) (a_bounds a) (a_os a) (a_srv a) (a_proc a)
                              (a_ex a) (a_pe a) (Some sens) (a_base a) (a_disc a) (a_hosts0 a) (a_hosts a) (a_fw a))
        | None => missing
        end
    | PhBaseValue => interp p r (mkAcc (a_sub a) (a_topo a) (a_bounds a) (a_os a) (a_srv a) (a_proc a)
                                       (a_ex a) (a_pe a) (a_sens a) true (a_disc a) (a_hosts0 a) (a_hosts a) (a_fw a))
    | PhDiscValue => interp p r (mkAcc (a_sub a) (a_topo a) (a_bounds a) (a_os a) (a_srv a) (a_proc a)
                                       (a_ex a) (a_pe a) (a_sens a) (a_base a) true (a_hosts0 a) (a_hosts a) (a_fw a))
    | PhHosts =>
        (* a host is constructed with its value (sensitive value or base value) and discovery value *)
        match a_sub a, a_sens a with
        | Some subnets, Some _ =>
            if a_os a && a_srv a && a_proc a && a_base a && a_disc a then
              let! hosts0 := gen_hosts_loop p (gen_addrs subnets) 0 (mkCS [] [] [] []) in
              interp p r (mkAcc (a_sub a) (a_topo a) (a_bounds a) (a_os a) (a_srv a) (a_proc a)
                                (a_ex a) (a_pe a) (a_sens a) (a_base a) (a_disc a) (Some hosts0) (a_hosts a) (a_fw a))
            else missing
        | _, _ => missing
        end
    | PhEnsure =>
        match a_sub a, a_ex a, a_pe a, a_sens a, a_hosts0 a with
        | Some subnets, Some ex, Some pe, Some sens, Some hosts0 =>
            let! pass1 := ensure_pass1 ex pe (map fst sens) hosts0 [] in
            let! hosts := ensure_pass2 ex pe subnets (seq 0 (length subnets)) (fst pass1) (snd pass1) in
            interp p r (mkAcc (a_sub a) (a_topo a) (a_bounds a) (a_os a) (a_srv a) (a_proc a)
                              (a_ex a) (a_pe a) (a_sens a) (a_base a) (a_disc a) (a_hosts0 a) (Some hosts) (a_fw a))
        | _, _, _, _, _ => missing
        end
    | PhFirewall =>
        match a_sub a, a_topo a, a_ex a, a_hosts a with
        | Some subnets, true, Some ex, Some hosts =>
            let n := length subnets in
            let! fw := gen_fw_pairs p ex hosts n (flat_map (fun s => map (fun t => (s, t)) (seq 0 n)) (seq 0 n)) in
            interp p r (mkAcc (a_sub a) (a_topo a) (a_bounds a) (a_os a) (a_srv a) (a_proc a)
                              (a_ex a) (a_pe a) (a_sens a) (a_base a) (a_disc a) (a_hosts0 a) (a_hosts a) (Some fw))
        | _, _, _, _ => missing
        end
    end
  end.

Lemma tie_T14_phases : forall p : gparams,
  generate p = if negb (params_ok p) then crash 1 else interp p tr_phases acc0.
Proof.
  intros p. unfold generate. destruct (params_ok p); cbn [negb]; [|reflexivity].
  cbv beta iota zeta delta [tr_phases acc0 interp finish a_sub a_topo a_bounds a_os a_srv a_proc a_ex a_pe a_sens
                            a_base a_disc a_hosts0 a_hosts a_fw andb].
  reflexivity.
Qed.
Print Assumptions tie_T14_phases.

(* the seed reaches numpy's global generator before the first draw *)
Lemma tie_T14_seed_first : tr_drawn_before_seed = [].
Proof. reflexivity. Qed.
Print Assumptions tie_T14_seed_first.
