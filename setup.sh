#!/bin/sh
# Builds the whole framework offline from files on disk: full .vo build of the Coq
# development (model, proofs, property theorems), extraction, OCaml driver.
set -e
cd "$(dirname "$0")"
mkdir -p work evidence replays
cd coq
coq_makefile -f _CoqProject -o Makefile >/dev/null
timeout 3000 make -j16 >../work/build.log 2>&1 || { tail -40 ../work/build.log; exit 1; }
cd ../extract
timeout 600 coqc -Q ../coq/theories NasimV Extract.v >/dev/null
ocamlfind ocamlopt -O3 -w -a model.mli model.ml driver.ml -o driver >/dev/null 2>&1
test -x driver
echo "setup ok"
