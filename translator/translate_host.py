#!/usr/bin/env python3
"""Level-2 translator, second part (same fail-closed rules as translate.py):

  T4  HostVector.perform_action -> a decision function over named atoms returning
      (result kind, compromised set, access overwritten, value paid)
  T5  the entitlement table of State.get_observation -> tr_target_mask / tr_disc_mask

Writes coq/gen/TrHost.v."""
import ast
import os
import sys

sys.path.insert(0, os.path.dirname(os.path.abspath(__file__)))
from translate import REPO, Untranslatable, src, get_function  # noqa: E402

HATOMS = {
    "action.is_service_scan()": "ha_srvscan x",
    "action.is_os_scan()": "ha_osscan x",
    "action.is_exploit()": "ha_exploit x",
    "self.is_running_service(action.service)": "ha_runs_srv x",
    "action.os is None": "ha_os_none x",
    "self.is_running_os(action.os)": "ha_runs_os x",
    "self.access == AccessLevel.ROOT": "ha_is_root x",
    "action.access == AccessLevel.ROOT": "ha_grant_root x",
    "self.compromised": "ha_comp x",
    "action.req_access <= self.access": "ha_req_le x",
    "action.is_process_scan()": "ha_procscan x",
    "action.is_privilege_escalation()": "ha_privesc x",
    "action.process is None": "ha_proc_none x",
    "self.is_running_process(action.process)": "ha_runs_proc x",
}


def hb(node, alias):
    if isinstance(node, ast.BoolOp):
        op = " && " if isinstance(node.op, ast.And) else " || "
        return "(" + op.join(hb(v, alias) for v in node.values) + ")"
    if isinstance(node, ast.UnaryOp) and isinstance(node.op, ast.Not):
        return f"negb {hb(node.operand, alias)}"
    text = src(node)
    if isinstance(node, ast.Name) and text in alias:
        return alias[text]
    if text in HATOMS:
        return f"({HATOMS[text]})"
    raise Untranslatable(f"HostVector.perform_action: condition '{text}' is outside the vocabulary")


def result_tag(call_text):
    """ActionResult(...) text -> result kind"""
    t = call_text.replace(" ", "")
    table = {
        "ActionResult(True,0,services=self.services)": "HSrvScan",
        "ActionResult(True,0,os=self.os)": "HOsScan",
        "ActionResult(True,value=value,services=self.services,os=self.os,access=action.access)": "HExploitOk",
        "ActionResult(False,0,permission_error=True)": "HPermErr",
        "ActionResult(True,0,access=self.access,processes=self.processes)": "HProcScan",
        "ActionResult(True,value=value,processes=self.processes,os=self.os,access=action.access)": "HPrivescOk",
        "ActionResult(False,0)": "HFail",
    }
    if t not in table:
        raise Untranslatable(f"HostVector.perform_action: result '{call_text}' is outside the vocabulary")
    return table[t]


def hblock(stmts, alias, eff, results, cont):
    """eff = (comp_set, acc_set, pay) as Coq boolean expression texts"""
    for i, st in enumerate(stmts):
        rest = stmts[i + 1:]
        if isinstance(st, ast.Expr) and isinstance(st.value, ast.Constant):
            continue
        if isinstance(st, ast.Assign) and len(st.targets) == 1:
            tgt, val = src(st.targets[0]), src(st.value)
            if tgt == "next_state" and val == "self.copy()":
                continue
            if tgt == "value" and val in ("0", "0.0"):
                eff = (eff[0], eff[1], "false")
                continue
            if tgt == "value" and val == "self.value":
                eff = (eff[0], eff[1], "true")
                continue
            if tgt == "next_state.compromised" and val == "True":
                eff = ("true", eff[1], eff[2])
                continue
            if tgt == "next_state.access" and val == "action.access":
                eff = (eff[0], "true", eff[2])
                continue
            if tgt == "result" and isinstance(st.value, ast.Call):
                tag = result_tag(val)
                if tag in ("HExploitOk", "HPrivescOk"):
                    results = dict(results, result=f"({tag}, {eff[0]}, {eff[1]}, {eff[2]})")
                else:
                    results = dict(results, result=f"({tag}, false, false, false)")
                continue
            if tgt in ("has_proc", "has_os"):
                alias = dict(alias, **{tgt: hb(st.value, alias)})
                continue
            raise Untranslatable(f"HostVector.perform_action: assignment '{src(st)}' is outside the vocabulary")
        if isinstance(st, ast.Return):
            if not (isinstance(st.value, ast.Tuple) and len(st.value.elts) == 2 and src(st.value.elts[0]) == "next_state"):
                raise Untranslatable(f"HostVector.perform_action: return '{src(st)}'")
            r = st.value.elts[1]
            if isinstance(r, ast.Name) and src(r) in results:
                return results[src(r)]
            if isinstance(r, ast.Call):
                tag = result_tag(src(r))
                if tag in ("HExploitOk", "HPrivescOk"):
                    return f"({tag}, {eff[0]}, {eff[1]}, {eff[2]})"
                return f"({tag}, false, false, false)"
            raise Untranslatable(f"HostVector.perform_action: return '{src(st)}'")
        if isinstance(st, ast.If):
            cond = hb(st.test, alias)
            # effects assigned inside a branch flow into the code after the if: thread them explicitly
            def after(eff2, results2, rest=rest, alias=alias):
                return hblock(rest, alias, eff2, results2, cont)
            then = hblock(st.body, alias, eff, results, after)
            els = hblock(st.orelse, alias, eff, results, after)
            return f"(if {cond} then {then} else {els})"
        raise Untranslatable(f"HostVector.perform_action: statement '{src(st)[:60]}' is outside the fragment")
    return cont(eff, results)


def t4_host_perform():
    f = get_function(f"{REPO}/nasim/envs/host_vector.py", "HostVector", "perform_action")
    if [a.arg for a in f.args.args] != ["self", "action"]:
        raise Untranslatable("HostVector.perform_action: signature changed")

    def off(eff, results):
        raise Untranslatable("HostVector.perform_action: control falls off the end")
    body = hblock(f.body, {}, ("false", "false", "false"), {}, off)
    return f"Definition tr_host_perform (x : hatoms) : houtcome :=\n  {body}.\n"


# ---------------------------------------------------------------------------
FIELDS = ["address", "compromised", "reachable", "discovered", "access", "value", "discovery_value",
          "services", "processes", "os"]      # order of mkM's arguments
KINDS = {"action.is_exploit()": "KExploit", "action.is_privilege_escalation()": "KPrivesc",
         "action.is_service_scan()": "KSrvScan", "action.is_os_scan()": "KOsScan",
         "action.is_process_scan()": "KProcScan", "action.is_subnet_scan()": "KSubScan"}
SCAN_LOOP = ("for host_addr in action_result.discovered:\n"
             "    discovered = action_result.discovered[host_addr]\n"
             "    if not discovered:\n        continue\n"
             "    d_idx, d_host = self.get_host_and_idx(host_addr)\n"
             "    newly_discovered = action_result.newly_discovered[host_addr]\n"
             "    d_obs = d_host.observe(discovery_value=newly_discovered, **obs_kwargs)\n"
             "    obs.update_from_host(d_idx, d_obs)")


def norm(t):
    return "".join(t.split()).replace("(d_idx,d_host)", "d_idx,d_host")


def t5_entitlement():
    f = get_function(f"{REPO}/nasim/envs/state.py", "State", "get_observation")
    texts = [src(s) for s in f.body]
    prefix = ["obs = Observation(self.shape())", "obs.from_action_result(action_result)"]
    body = [s for s in f.body if not (isinstance(s, ast.Expr) and isinstance(s.value, ast.Constant))]
    texts = [src(s) for s in body]
    if texts[:2] != prefix:
        raise Untranslatable("get_observation: does not start by building the observation and writing the flags")
    expect = {2: "if fully_obs:\n    obs.from_state(self)\n    return obs",
              3: "if action.is_noop():\n    return obs",
              4: "if not action_result.success:\n    return obs",
              5: "t_idx, t_host = self.get_host_and_idx(action.target)"}
    for i, want in expect.items():
        if norm(texts[i]) != norm(want):
            raise Untranslatable(f"get_observation: statement {i} is '{texts[i][:80]}', expected '{want[:60]}'")
    kw = body[6]
    if not (isinstance(kw, ast.Assign) and src(kw.targets[0]) == "obs_kwargs" and isinstance(kw.value, ast.Call)
            and src(kw.value.func) == "dict" and not kw.value.args):
        raise Untranslatable("get_observation: obs_kwargs = dict(...) not found")
    base = {"discovery_value": False}
    for k in kw.value.keywords:
        if not (isinstance(k.value, ast.Constant) and isinstance(k.value.value, bool)):
            raise Untranslatable("get_observation: obs_kwargs values must be literal booleans")
        base[k.arg] = k.value.value
    if set(base) != set(FIELDS):
        raise Untranslatable(f"get_observation: obs_kwargs fields {sorted(base)}")
    chain = body[7]
    masks = {}
    disc = None
    while True:
        if not isinstance(chain, ast.If):
            raise Untranslatable("get_observation: expected the if/elif chain over action kinds")
        test = src(chain.test)
        if test not in KINDS:
            raise Untranslatable(f"get_observation: branch condition '{test}'")
        m = dict(base)
        stmts = list(chain.body)
        if KINDS[test] == "KSubScan":
            if not stmts or norm(src(stmts[0])) != norm(SCAN_LOOP):
                raise Untranslatable("get_observation: the subnet-scan loop over discovered hosts changed")
            disc = dict(base)          # rows of discovered hosts use the kwargs as they are at the loop
            stmts = stmts[1:]
        for st in stmts:
            ok = (isinstance(st, ast.Assign) and isinstance(st.targets[0], ast.Subscript)
                  and src(st.targets[0].value) == "obs_kwargs" and isinstance(st.targets[0].slice, ast.Constant)
                  and isinstance(st.value, ast.Constant) and isinstance(st.value.value, bool))
            if not ok:
                raise Untranslatable(f"get_observation: statement '{src(st)}' in the {KINDS[test]} branch")
            if st.targets[0].slice.value not in m:
                raise Untranslatable(f"get_observation: unknown observe() field {st.targets[0].slice.value!r}")
            m[st.targets[0].slice.value] = st.value.value
        masks[KINDS[test]] = m
        if len(chain.orelse) == 1 and isinstance(chain.orelse[0], ast.If):
            chain = chain.orelse[0]
            continue
        if len(chain.orelse) == 1 and isinstance(chain.orelse[0], ast.Raise):
            break
        raise Untranslatable("get_observation: the chain must end with 'else: raise NotImplementedError'")
    tail = [norm(t) for t in texts[8:]]
    if tail != [norm("target_obs = t_host.observe(**obs_kwargs)"), norm("obs.update_from_host(t_idx, target_obs)"),
                norm("return obs")]:
        raise Untranslatable("get_observation: the code after the chain changed")
    if set(masks) != set(KINDS.values()) or disc is None:
        raise Untranslatable("get_observation: not every action kind has a branch")

    def mk(m, dv=None):
        vals = [("newly" if (f == "discovery_value" and dv) else str(bool(m[f])).lower()) for f in FIELDS]
        return "mkM " + " ".join(vals)
    lines = ["Definition tr_target_mask (k : akind) : omask :=\n  match k with"]
    for k in ["KSrvScan", "KOsScan", "KSubScan", "KProcScan", "KExploit", "KPrivesc"]:
        lines.append(f"  | {k} => {mk(masks[k])}")
    lines.append(f"  | KNoop => {mk(base)}\n  end.")
    lines.append(f"Definition tr_disc_mask (newly : bool) : omask := {mk(disc, dv=True)}.")
    return "\n".join(lines) + "\n"


def main():
    out = os.path.join(os.environ.get("VERIF_COQ", "/verif/coq"), "gen", "TrHost.v")
    parts, failed = [], []
    for name, fn in (("T4 HostVector.perform_action", t4_host_perform), ("T5 entitlement table", t5_entitlement)):
        try:
            parts.append(f"(* {name} *)\n" + fn())
        except Untranslatable as e:
            failed.append(f"{name}: {e}")
        except (SyntaxError, OSError, IndexError) as e:
            failed.append(f"{name}: {e!r}")
    if failed:
        print("UNTRANSLATABLE\n" + "\n".join(failed))
        sys.exit(3)
    os.makedirs(os.path.dirname(out), exist_ok=True)
    with open(out, "w") as f:
        f.write("(* regenerated from /repo's source by translator/translate_host.py on every run *)\n"
                "From NasimV Require Import HostGates.\n\n" + "\n".join(parts))
    print("translated: " + out)


if __name__ == "__main__":
    main()
