#!/usr/bin/env python3
"""Level-2 translator, ninth part (T12): ParameterisedActionSpace.get_action -- which component of the
vector means what, the +1 of the subnet, the modulo of the host, the 0 = "no OS" convention, which scan
class takes which cost field, the class order of action_types -- fail-closed.  Writes coq/gen/TrParam.v."""
import ast
import os
import sys

sys.path.insert(0, os.path.dirname(os.path.abspath(__file__)))
from translate import REPO, Untranslatable, src, get_function  # noqa: E402

PATH = f"{REPO}/nasim/envs/action.py"
CLASS = {"ServiceScan": 0, "OSScan": 1, "SubnetScan": 2, "ProcessScan": 3, "Exploit": 4, "PrivilegeEscalation": 5}
COSTS = {"self.scenario.service_scan_cost": 0, "self.scenario.os_scan_cost": 1, "self.scenario.subnet_scan_cost": 2,
         "self.scenario.process_scan_cost": 3}


def norm(t):
    return "".join(t.split())


def body_of(f):
    return [s for s in f.body if not (isinstance(s, ast.Expr) and isinstance(s.value, ast.Constant))]


def vec_idx(node):
    if isinstance(node, ast.Subscript) and src(node.value) == "action_vec" and isinstance(node.slice, ast.Constant) \
       and isinstance(node.slice.value, int):
        return node.slice.value
    raise Untranslatable(f"'{src(node)}' is not a component of action_vec")


def arith(node, var):
    """arithmetic over ONE vector component (named var) and integer literals"""
    if isinstance(node, ast.Constant) and isinstance(node.value, int) and not isinstance(node.value, bool):
        return str(node.value)
    if isinstance(node, ast.Subscript):
        vec_idx(node)
        return var
    if isinstance(node, ast.BinOp) and isinstance(node.op, (ast.Add, ast.Sub)):
        return f"({arith(node.left, var)} {'+' if isinstance(node.op, ast.Add) else '-'} {arith(node.right, var)})"
    raise Untranslatable(f"expression '{src(node)}' is outside the fragment")


def t12():
    tree = ast.parse(open(PATH).read())
    cls = next(n for n in tree.body if isinstance(n, ast.ClassDef) and n.name == "ParameterisedActionSpace")
    at = next((s for s in cls.body if isinstance(s, ast.Assign) and src(s.targets[0]) == "action_types"), None)
    if at is None or not isinstance(at.value, ast.List) or any(src(e) not in CLASS for e in at.value.elts):
        raise Untranslatable("action_types: expected a literal list of the six action classes")
    types = [CLASS[src(e)] for e in at.value.elts]
    f = get_function(PATH, "ParameterisedActionSpace", "get_action")
    b = [s for s in body_of(f) if not isinstance(s, ast.Assert)]
    # the components may first be turned into plain Python ints (same values; repair of defect D15)
    if b and norm(src(b[0])) == "action_vec=[int(x)forxinaction_vec]":
        b = b[1:]
    pos = {}
    # a_class = self.action_types[action_vec[i]]
    s0 = b[0]
    if not (isinstance(s0, ast.Assign) and src(s0.targets[0]) == "a_class" and isinstance(s0.value, ast.Subscript)
            and src(s0.value.value) == "self.action_types"):
        raise Untranslatable("get_action: expected a_class = self.action_types[action_vec[..]]")
    pos["type"] = vec_idx(s0.value.slice)
    s1 = b[1]
    if not (isinstance(s1, ast.Assign) and src(s1.targets[0]) == "subnet"):
        raise Untranslatable("get_action: expected subnet = ...")
    sub_idx = [vec_idx(n) for n in ast.walk(s1.value) if isinstance(n, ast.Subscript)]
    if len(sub_idx) != 1:
        raise Untranslatable("get_action: subnet must be computed from one vector component")
    pos["subnet"] = sub_idx[0]
    subnet_e = arith(s1.value, "v")
    s2 = b[2]
    if not (isinstance(s2, ast.Assign) and src(s2.targets[0]) == "host" and isinstance(s2.value, ast.BinOp)
            and isinstance(s2.value.op, ast.Mod) and norm(src(s2.value.right)) == "self.scenario.subnets[subnet]"):
        raise Untranslatable("get_action: expected host = action_vec[..] % self.scenario.subnets[subnet]")
    pos["host"] = vec_idx(s2.value.left)
    if norm(src(b[3])) not in ("target=(subnet,host)", "target=subnet,host"):
        raise Untranslatable("get_action: expected target = (subnet, host)")
    s4 = b[4]
    if norm(src(s4)) != norm("if a_class not in (Exploit, PrivilegeEscalation):\n    kwargs = self._get_scan_action_def(a_class)\n"
                             "    return a_class(target=target, **kwargs)"):
        raise Untranslatable("get_action: the scan branch changed")
    s5 = b[5]
    if not (isinstance(s5, ast.Assign) and src(s5.targets[0]) == "os" and isinstance(s5.value, ast.IfExp)
            and norm(src(s5.value.body)) == "None" and isinstance(s5.value.test, ast.Compare)
            and isinstance(s5.value.test.ops[0], ast.Eq) and isinstance(s5.value.orelse, ast.Subscript)
            and norm(src(s5.value.orelse.value)) == "self.scenario.os"):
        raise Untranslatable("get_action: expected os = None if action_vec[..] == c else self.scenario.os[..]")
    pos["os"] = vec_idx(s5.value.test.left)
    none_at = arith(s5.value.test.comparators[0], "v")
    os_e = arith(s5.value.orelse.slice, "v")
    s6 = b[6]
    want6 = norm("if a_class == Exploit:\n    service = self.scenario.services[action_vec[S]]\n"
                 "    a_def = self._get_exploit_def(service, os)\nelse:\n    proc = self.scenario.processes[action_vec[P]]\n"
                 "    a_def = self._get_privesc_def(proc, os)")
    if not (isinstance(s6, ast.If) and len(s6.body) == 2 and len(s6.orelse) == 2):
        raise Untranslatable("get_action: the exploit / escalation branch changed")
    pos["service"] = vec_idx(s6.body[0].value.slice)
    pos["process"] = vec_idx(s6.orelse[0].value.slice)
    if norm(src(s6)) != want6.replace("action_vec[S]", f"action_vec[{pos['service']}]").replace("action_vec[P]", f"action_vec[{pos['process']}]"):
        raise Untranslatable("get_action: the exploit / escalation branch changed")
    if [norm(src(s)) for s in b[7:]] != [norm("if a_def is None:\n    return NoOp()"), norm("return a_class(target=target, **a_def)")]:
        raise Untranslatable("get_action: the tail (NoOp for an undefined pair) changed")
    # _get_scan_action_def: class -> cost field
    g = get_function(PATH, "ParameterisedActionSpace", "_get_scan_action_def")
    gb = body_of(g)
    pairs = []
    node = gb[0]
    while isinstance(node, ast.If):
        t = node.test
        if not (isinstance(t, ast.Compare) and src(t.left) == "a_class" and isinstance(t.ops[0], ast.Eq)
                and src(t.comparators[0]) in CLASS and len(node.body) == 1 and isinstance(node.body[0], ast.Assign)
                and src(node.body[0].targets[0]) == "cost" and src(node.body[0].value) in COSTS):
            raise Untranslatable("_get_scan_action_def: expected 'if a_class == <Scan>: cost = self.scenario.<..>_cost'")
        pairs.append((CLASS[src(t.comparators[0])], COSTS[src(node.body[0].value)]))
        if len(node.orelse) == 1 and isinstance(node.orelse[0], ast.If):
            node = node.orelse[0]
        else:
            if not (len(node.orelse) == 1 and isinstance(node.orelse[0], ast.Raise)):
                raise Untranslatable("_get_scan_action_def: expected a final 'else: raise'")
            node = None
    if len(gb) != 2 or norm(src(gb[1])) != "return{'cost':cost}":
        raise Untranslatable("_get_scan_action_def: expected return {'cost': cost}")
    order = ["type", "subnet", "host", "os", "service", "process"]
    return ("(* action class codes: 0 ServiceScan, 1 OSScan, 2 SubnetScan, 3 ProcessScan, 4 Exploit, 5 PrivilegeEscalation *)\n"
            f"Definition tr_types : list nat := [{'; '.join(str(x) for x in types)}]%nat.\n"
            f"Definition tr_positions : list nat := [{'; '.join(str(pos[k]) for k in order)}]%nat.   (* {', '.join(order)} *)\n"
            f"Definition tr_pv_subnet (v : Z) : Z := {subnet_e}.\n"
            "Definition tr_pv_host (v size : Z) : Z := v mod size.\n"
            f"Definition tr_pv_os (v : Z) : option Z := if v =? {none_at} then None else Some {os_e}.\n"
            f"Definition tr_scan_costs : list (nat * nat) := [{'; '.join(f'({a}, {c})' for a, c in pairs)}]%nat.\n")


def main():
    out = os.path.join(os.environ.get("VERIF_COQ", "/verif/coq"), "gen", "TrParam.v")
    try:
        text = t12()
    except Untranslatable as e:
        print(f"UNTRANSLATABLE\nT12: {e}")
        sys.exit(3)
    except (SyntaxError, OSError, IndexError, StopIteration, AttributeError) as e:
        print(f"UNTRANSLATABLE\nT12: {e!r}")
        sys.exit(3)
    os.makedirs(os.path.dirname(out), exist_ok=True)
    with open(out, "w") as f:
        f.write("(* regenerated from /repo's source by translator/translate_param.py on every run *)\n"
                "From Coq Require Import ZArith List.\nImport ListNotations.\nOpen Scope Z_scope.\n\n"
                "(* T12 ParameterisedActionSpace.get_action *)\n" + text)
    print("translated: " + out)


if __name__ == "__main__":
    main()
