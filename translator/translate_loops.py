#!/usr/bin/env python3
"""Level-2 translator, third part: the per-host loop bodies of Network.reset,
Network._update_reachable and Network._perform_subnet_scan, each as a function of the
status of ONE row (fail-closed, same rules as translate.py).  Writes coq/gen/TrLoops.v."""
import ast
import os
import sys

sys.path.insert(0, os.path.dirname(os.path.abspath(__file__)))
from translate import REPO, Untranslatable, src, get_function  # noqa: E402


def norm(t):
    return "".join(t.split())


def body_of(f):
    return [s for s in f.body if not (isinstance(s, ast.Expr) and isinstance(s.value, ast.Constant))]


def t6_reset():
    f = get_function(f"{REPO}/nasim/envs/network.py", "Network", "reset")
    b = body_of(f)
    if len(b) != 3 or norm(src(b[0])) != norm("next_state = state.copy()") or norm(src(b[2])) != norm("return next_state"):
        raise Untranslatable("reset: expected copy / loop / return")
    loop = b[1]
    if not (isinstance(loop, ast.For) and norm(src(loop.target)) == "host_addr" and norm(src(loop.iter)) == "self.address_space"
            and not loop.orelse):
        raise Untranslatable("reset: the loop must run over self.address_space")
    st = loop.body
    if not st or norm(src(st[0])) != norm("host = next_state.get_host(host_addr)"):
        raise Untranslatable("reset: the loop must first fetch the host view")
    val = {"comp": "comp", "acc": "acc", "reach": "reach", "disc": "disc"}
    names = {"host.compromised": "comp", "host.access": "acc", "host.reachable": "reach", "host.discovered": "disc"}
    rhs = {"False": "false", "True": "true", "AccessLevel.NONE": "0%nat",
           "self.subnet_public(host_addr[0])": "pub"}
    for s in st[1:]:
        if not (isinstance(s, ast.Assign) and len(s.targets) == 1 and src(s.targets[0]) in names):
            raise Untranslatable(f"reset: statement '{src(s)}' is outside the fragment")
        t, v = names[src(s.targets[0])], src(s.value)
        if v in rhs:
            val[t] = rhs[v]
        elif v in names:
            val[t] = val[names[v]]
        else:
            raise Untranslatable(f"reset: right-hand side '{v}' is outside the vocabulary")
    return ("Definition tr_reset_row (pub comp reach disc : bool) (acc : nat) : bool * bool * bool * nat :=\n"
            f"  ({val['comp']}, {val['reach']}, {val['disc']}, {val['acc']}).\n")


def t6_update_reachable():
    f = get_function(f"{REPO}/nasim/envs/network.py", "Network", "_update_reachable")
    b = body_of(f)
    want = ["comp_subnet = compromised_addr[0]",
            "for addr in self.address_space:\n    if state.host_reachable(addr):\n        continue\n"
            "    if self.subnets_connected(comp_subnet, addr[0]):\n        state.set_host_reachable(addr)"]
    if [norm(src(s)) for s in b] != [norm(w) for w in want]:
        raise Untranslatable("_update_reachable: the body changed: " + " | ".join(src(s)[:70] for s in b))
    u = get_function(f"{REPO}/nasim/envs/network.py", "Network", "_update")
    if [norm(src(s)) for s in body_of(u)] != [norm("if action.is_exploit() and action_obs.success:\n"
                                                   "    self._update_reachable(state, action.target)")]:
        raise Untranslatable("_update: the body changed")
    return ("(* reach: the row's flag; conn: subnets_connected(subnet of the newly compromised host, subnet of the row) *)\n"
            "Definition tr_update_reach_row (reach conn : bool) : bool :=\n"
            "  if reach then reach else if conn then true else reach.\n")


def t6_subnet_scan():
    f = get_function(f"{REPO}/nasim/envs/network.py", "Network", "_perform_subnet_scan")
    b = body_of(f)
    texts = [norm(src(s)) for s in b]
    gate1 = norm("if not next_state.host_compromised(action.target):\n    result = ActionResult(False, 0.0, connection_error=True)\n"
                 "    return (next_state, result)")
    gate1b = gate1.replace("return(next_state,result)", "returnnext_state,result")
    gate2 = norm("if not next_state.host_has_access(action.target, action.req_access):\n"
                 "    result = ActionResult(False, 0.0, permission_error=True)\n    return (next_state, result)")
    gate2b = gate2.replace("return(next_state,result)", "returnnext_state,result")
    if texts[0] not in (gate1, gate1b) or texts[1] not in (gate2, gate2b):
        raise Untranslatable("_perform_subnet_scan: the two gates (compromised, then access) changed")
    init = [norm(x) for x in ("discovered = {}", "newly_discovered = {}", "discovery_reward = 0",
                              "target_subnet = action.target[0]")]
    if texts[2:6] != init:
        raise Untranslatable("_perform_subnet_scan: initialisation changed")
    loop = norm("for h_addr in self.address_space:\n    newly_discovered[h_addr] = False\n    discovered[h_addr] = False\n"
                "    if self.subnets_connected(target_subnet, h_addr[0]):\n        host = next_state.get_host(h_addr)\n"
                "        discovered[h_addr] = True\n        if not host.discovered:\n            newly_discovered[h_addr] = True\n"
                "            host.discovered = True\n            discovery_reward += host.discovery_value")
    if texts[6] != loop:
        raise Untranslatable("_perform_subnet_scan: the loop over hosts changed")
    tail = [norm("obs = ActionResult(True, discovery_reward, discovered=discovered, newly_discovered=newly_discovered)"),
            norm("return next_state, obs")]
    got = [t.replace("return(next_state,obs)", "returnnext_state,obs") for t in texts[7:]]
    if got != tail:
        raise Untranslatable("_perform_subnet_scan: result construction changed")
    return ("(* per row: (reported discovered, reported newly discovered, discovered flag afterwards, pays discovery value) *)\n"
            "Definition tr_scan_row (conn disc : bool) : bool * bool * bool * bool :=\n"
            "  if conn then (true, negb disc, true, negb disc) else (false, false, disc, false).\n"
            "(* gates in front of the loop: 0 = connection error, 1 = permission error, 2 = scan proceeds *)\n"
            "Definition tr_scan_gate (comp has_access : bool) : nat :=\n"
            "  if negb comp then 0%nat else if negb has_access then 1%nat else 2%nat.\n")


def main():
    out = os.path.join(os.environ.get("VERIF_COQ", "/verif/coq"), "gen", "TrLoops.v")
    parts, failed = [], []
    for name, fn in (("T6 reset", t6_reset), ("T6 _update_reachable", t6_update_reachable),
                     ("T6 _perform_subnet_scan", t6_subnet_scan)):
        try:
            parts.append(f"(* {name} *)\n" + fn())
        except Untranslatable as e:
            failed.append(f"{name}: {e}")
        except (SyntaxError, OSError, IndexError) as e:
            failed.append(f"{name}: {e!r}")
    if failed:
        print("UNTRANSLATABLE\n" + "\n".join(failed))
        sys.exit(3)
    os.makedirs(os.path.dirname(out), exist_ok=True)
    with open(out, "w") as f:
        f.write("(* regenerated from /repo's source by translator/translate_loops.py on every run *)\n"
                "From Coq Require Import Bool.\n\n" + "\n".join(parts))
    print("translated: " + out)


if __name__ == "__main__":
    main()
