#!/usr/bin/env python3
"""Level-2 translator, sixth part (T9): nasim.envs.action.load_action_list -- the ORDER in which the flat
action space lists actions (per host: which scan with which cost field, then the exploit definitions, then
the escalation definitions), fail-closed.  Writes coq/gen/TrActions.v: a list of slots."""
import ast
import os
import sys

sys.path.insert(0, os.path.dirname(os.path.abspath(__file__)))
from translate import REPO, Untranslatable, src  # noqa: E402

SCANS = {"ServiceScan": 0, "OSScan": 1, "SubnetScan": 2, "ProcessScan": 3}
COSTS = {"scenario.service_scan_cost": 0, "scenario.os_scan_cost": 1, "scenario.subnet_scan_cost": 2,
         "scenario.process_scan_cost": 3}


def norm(t):
    return "".join(t.split())


def t9():
    tree = ast.parse(open(f"{REPO}/nasim/envs/action.py").read())
    f = next((n for n in tree.body if isinstance(n, ast.FunctionDef) and n.name == "load_action_list"), None)
    if f is None:
        raise Untranslatable("load_action_list not found")
    b = [s for s in f.body if not (isinstance(s, ast.Expr) and isinstance(s.value, ast.Constant))]
    if len(b) != 3 or norm(src(b[0])) != "action_list=[]" or norm(src(b[2])) != "returnaction_list":
        raise Untranslatable("load_action_list: expected action_list = [] / one loop / return action_list")
    loop = b[1]
    if not (isinstance(loop, ast.For) and src(loop.target) == "address" and src(loop.iter) == "scenario.address_space"
            and not loop.orelse):
        raise Untranslatable("load_action_list: the outer loop must run over scenario.address_space")
    slots = []
    for s in loop.body:
        if isinstance(s, ast.Expr) and isinstance(s.value, ast.Call) and src(s.value.func) == "action_list.append" \
           and len(s.value.args) == 1 and isinstance(s.value.args[0], ast.Call):
            c = s.value.args[0]
            cls = src(c.func)
            if cls in SCANS and len(c.args) == 2 and not c.keywords and src(c.args[0]) == "address" \
               and src(c.args[1]) in COSTS:
                slots.append(f"SScan {SCANS[cls]} {COSTS[src(c.args[1])]}")
                continue
        if isinstance(s, ast.For) and not s.orelse and len(s.body) == 2:
            it, tgt = norm(src(s.iter)), norm(src(s.target))
            a, ap = norm(src(s.body[0])), norm(src(s.body[1]))
            if it == "scenario.exploits.items()" and tgt == "e_name,e_def" \
               and a == "exploit=Exploit(e_name,address,**e_def)" and ap == "action_list.append(exploit)":
                slots.append("SExploits")
                continue
            if it == "scenario.privescs.items()" and tgt == "pe_name,pe_def" \
               and a == "privesc=PrivilegeEscalation(pe_name,address,**pe_def)" and ap == "action_list.append(privesc)":
                slots.append("SPrivescs")
                continue
        raise Untranslatable(f"load_action_list: statement '{src(s)[:80]}' is outside the fragment")
    return ("Inductive slot := SScan (kind cost_field : nat) | SExploits | SPrivescs.\n"
            "Definition tr_host_slots : list slot :=\n  [" + "; ".join(slots) + "].\n")


def main():
    out = os.path.join(os.environ.get("VERIF_COQ", "/verif/coq"), "gen", "TrActions.v")
    try:
        text = t9()
    except Untranslatable as e:
        print(f"UNTRANSLATABLE\nT9: {e}")
        sys.exit(3)
    except (SyntaxError, OSError, IndexError) as e:
        print(f"UNTRANSLATABLE\nT9: {e!r}")
        sys.exit(3)
    os.makedirs(os.path.dirname(out), exist_ok=True)
    with open(out, "w") as f:
        f.write("(* regenerated from /repo's source by translator/translate_actions.py on every run *)\n"
                "From Coq Require Import List.\nImport ListNotations.\n\n(* T9 load_action_list *)\n" + text)
    print("translated: " + out)


if __name__ == "__main__":
    main()
