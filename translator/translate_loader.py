#!/usr/bin/env python3
"""Level-2 translator, tenth part (T13): the loader's rules about a host's `value:` entry and about the optional
`step_limit` -- ScenarioLoader._get_host_value, the value block of _validate_host_config, _parse_step_limit --
fail-closed.  Writes coq/gen/TrLoader.v."""
import ast
import os
import sys

sys.path.insert(0, os.path.dirname(os.path.abspath(__file__)))
from translate import REPO, Untranslatable, src, get_function  # noqa: E402

PATH = f"{REPO}/nasim/scenarios/loader.py"


def norm(t):
    return "".join(t.split())


def body_of(f):
    return [s for s in f.body if not (isinstance(s, ast.Expr) and isinstance(s.value, ast.Constant))]


def t13():
    # ---- _get_host_value
    f = get_function(PATH, "ScenarioLoader", "_get_host_value")
    b = body_of(f)
    want = ["ifaddressinself.sensitive_hosts:returnfloat(self.sensitive_hosts[address])",
            "returnfloat(host_cfg.get(u.HOST_VALUE,u.DEFAULT_HOST_VALUE))"]
    if [norm(src(s)) for s in b] != want:
        raise Untranslatable("_get_host_value: expected 'if address in self.sensitive_hosts: return float(declared)' "
                             "then 'return float(host_cfg.get(value, default))'")
    u = ast.parse(open(f"{REPO}/nasim/scenarios/utils.py").read())
    dflt = next((s.value.value for s in u.body if isinstance(s, ast.Assign) and src(s.targets[0]) == "DEFAULT_HOST_VALUE"
                 and isinstance(s.value, ast.Constant)), None)
    if dflt is None or isinstance(dflt, bool) or float(dflt) != int(dflt):
        raise Untranslatable("DEFAULT_HOST_VALUE is not an integer literal")
    out = ("Definition tr_host_value (is_sensitive has_value : bool) (declared given : Z) : Z :=\n"
           f"  if is_sensitive then declared else if has_value then given else {int(dflt)}.\n")
    # ---- the value block of _validate_host_config
    f = get_function(PATH, "ScenarioLoader", "_validate_host_config")
    blk = [s for s in f.body if isinstance(s, ast.If) and norm(src(s.test)) == "u.HOST_VALUEincfg"]
    if len(blk) != 1 or blk[0].orelse:
        raise Untranslatable("_validate_host_config: expected exactly one 'if u.HOST_VALUE in cfg:' block without else")
    vb = blk[0].body
    ok = (len(vb) == 3 and norm(src(vb[0])) == "host_value=cfg[u.HOST_VALUE]"
          and isinstance(vb[1], ast.Assert) and norm(src(vb[1].test)) == "isinstance(host_value,(int,float))"
          and isinstance(vb[2], ast.If) and not vb[2].orelse
          and norm(src(vb[2].test)) == "eval(addr)inself.sensitive_hosts" and len(vb[2].body) == 2
          and norm(src(vb[2].body[0])) == "sh_value=self.sensitive_hosts[eval(addr)]"
          and isinstance(vb[2].body[1], ast.Assert)
          and norm(src(vb[2].body[1].test)) == "math.isclose(host_value,sh_value)")
    if not ok:
        raise Untranslatable("_validate_host_config: the value block changed (type assertion, then for sensitive hosts "
                             "math.isclose(host_value, sh_value))")
    out += ("Definition tr_value_ok (has_value is_number is_sensitive close : bool) : bool :=\n"
            "  if has_value then is_number && (if is_sensitive then close else true) else true.\n")
    # ---- _parse_step_limit
    f = get_function(PATH, "ScenarioLoader", "_parse_step_limit")
    b = body_of(f)
    ok = (len(b) == 2 and isinstance(b[0], ast.If) and norm(src(b[0].test)) == "u.STEP_LIMITnotinself.yaml_dict"
          and [norm(src(s)) for s in b[0].body] == ["step_limit=None"] and len(b[0].orelse) == 2
          and norm(src(b[0].orelse[0])) == "step_limit=self.yaml_dict[u.STEP_LIMIT]"
          and isinstance(b[0].orelse[1], ast.Assert) and norm(src(b[0].orelse[1].test)) == "step_limit>0"
          and norm(src(b[1])) == "self.step_limit=step_limit")
    if not ok:
        raise Untranslatable("_parse_step_limit: expected absent -> None, present -> asserted > 0, then stored")
    out += ("Definition tr_limit (present : bool) (z : Z) : option (option Z) :=\n"
            "  if negb present then Some None else if 0 <? z then Some (Some z) else None.\n")
    return out


def main():
    out = os.path.join(os.environ.get("VERIF_COQ", "/verif/coq"), "gen", "TrLoader.v")
    try:
        text = t13()
    except Untranslatable as e:
        print(f"UNTRANSLATABLE\nT13: {e}")
        sys.exit(3)
    except (SyntaxError, OSError, IndexError, StopIteration) as e:
        print(f"UNTRANSLATABLE\nT13: {e!r}")
        sys.exit(3)
    os.makedirs(os.path.dirname(out), exist_ok=True)
    with open(out, "w") as f:
        f.write("(* regenerated from /repo's source by translator/translate_loader.py on every run *)\n"
                "From Coq Require Import ZArith Bool.\nOpen Scope Z_scope.\n\n(* T13 loader: host value and step limit *)\n" + text)
    print("translated: " + out)


if __name__ == "__main__":
    main()
