#!/usr/bin/env python3
"""Level-2 translator, fourth part (T7): ScenarioGenerator._generate_subnets -- the arithmetic that
decides how many hosts a generated scenario has -- as a Gallina function over Z (fail-closed, same
rules as translate.py).  Writes coq/gen/TrGen.v.

Vocabulary: integer constants (also module-level integer constants, resolved from the module),
the parameter and local names, + - * // %, math.ceil(a / b) (rendered as the integer ceiling
-((-a)/b): exact for the documented sizes, recorded in the trusted base), comparisons in `if`;
statements: `name = expr`, `subnets = [expr]`, `subnets.append(expr)`, `subnets += [expr] * expr`,
`if cmp: subnets.append(expr)`, `self.subnets = subnets`."""
import ast
import os
import sys

sys.path.insert(0, os.path.dirname(os.path.abspath(__file__)))
from translate import REPO, Untranslatable, src, get_function  # noqa: E402

PATH = f"{REPO}/nasim/scenarios/generator.py"


def module_constants():
    out = {}
    for node in ast.parse(open(PATH).read()).body:
        if isinstance(node, ast.Assign) and len(node.targets) == 1 and isinstance(node.targets[0], ast.Name) \
           and isinstance(node.value, ast.Constant) and isinstance(node.value.value, int) \
           and not isinstance(node.value.value, bool):
            out[node.targets[0].id] = node.value.value
    return out


def arith(node, names, consts):
    if isinstance(node, ast.Constant) and isinstance(node.value, int) and not isinstance(node.value, bool):
        return str(node.value) if node.value >= 0 else f"({node.value})"
    if isinstance(node, ast.Name):
        if node.id in names:
            return node.id
        if node.id in consts:
            return str(consts[node.id])
        raise Untranslatable(f"name '{node.id}' is neither the parameter, a local, nor a module-level integer constant")
    if isinstance(node, ast.BinOp):
        ops = {ast.Add: "+", ast.Sub: "-", ast.Mult: "*", ast.FloorDiv: "/", ast.Mod: "mod"}
        if type(node.op) in ops:
            return f"({arith(node.left, names, consts)} {ops[type(node.op)]} {arith(node.right, names, consts)})"
    if isinstance(node, ast.Call) and src(node.func) == "math.ceil" and len(node.args) == 1 and not node.keywords \
       and isinstance(node.args[0], ast.BinOp) and isinstance(node.args[0].op, ast.Div):
        d = node.args[0]
        return f"(cdiv {arith(d.left, names, consts)} {arith(d.right, names, consts)})"
    raise Untranslatable(f"expression '{src(node)}' is outside the arithmetic fragment")


def cond(node, names, consts):
    if isinstance(node, ast.Compare) and len(node.ops) == 1:
        a, b = arith(node.left, names, consts), arith(node.comparators[0], names, consts)
        op = type(node.ops[0])
        if op is ast.Eq:
            return f"({a} =? {b})"
        if op is ast.NotEq:
            return f"(negb ({a} =? {b}))"
        if op is ast.Lt:
            return f"({a} <? {b})"
        if op is ast.LtE:
            return f"({a} <=? {b})"
        if op is ast.Gt:
            return f"({b} <? {a})"
        if op is ast.GtE:
            return f"({b} <=? {a})"
    raise Untranslatable(f"condition '{src(node)}' is outside the fragment")


def t7_subnets():
    f = get_function(PATH, "ScenarioGenerator", "_generate_subnets")
    args = [a.arg for a in f.args.args]
    if args != ["self", "num_hosts"]:
        raise Untranslatable(f"_generate_subnets: parameters {args}")
    consts = module_constants()
    names, lets, segs, lst, closed = ["num_hosts"], [], [], None, False
    for s in f.body:
        if isinstance(s, ast.Expr) and isinstance(s.value, ast.Constant):
            continue
        if closed:
            raise Untranslatable("_generate_subnets: statements after 'self.subnets = ...'")
        if isinstance(s, ast.Assign) and len(s.targets) == 1 and isinstance(s.targets[0], ast.Name):
            t = s.targets[0].id
            if isinstance(s.value, ast.List):
                if lst is not None or t in names:
                    raise Untranslatable("_generate_subnets: a second list / a reassigned name")
                lst = t
                segs += [f"[{arith(e, names, consts)}]" for e in s.value.elts]
                continue
            if t in names or t == lst or t in consts:
                raise Untranslatable(f"_generate_subnets: '{t}' is assigned twice")
            lets.append((t, arith(s.value, names, consts)))
            names.append(t)
            continue
        if isinstance(s, ast.Expr) and isinstance(s.value, ast.Call) and lst and src(s.value.func) == f"{lst}.append" \
           and len(s.value.args) == 1 and not s.value.keywords:
            segs.append(f"[{arith(s.value.args[0], names, consts)}]")
            continue
        if isinstance(s, ast.AugAssign) and isinstance(s.op, ast.Add) and lst and src(s.target) == lst \
           and isinstance(s.value, ast.BinOp) and isinstance(s.value.op, ast.Mult) \
           and isinstance(s.value.left, ast.List) and len(s.value.left.elts) == 1:
            segs.append(f"repeat {arith(s.value.left.elts[0], names, consts)} "
                        f"(Z.to_nat {arith(s.value.right, names, consts)})")
            continue
        if isinstance(s, ast.If) and not s.orelse and len(s.body) == 1 and lst:
            b = s.body[0]
            if isinstance(b, ast.Expr) and isinstance(b.value, ast.Call) and src(b.value.func) == f"{lst}.append" \
               and len(b.value.args) == 1:
                segs.append(f"(if {cond(s.test, names, consts)} then [{arith(b.value.args[0], names, consts)}] else [])")
                continue
        if isinstance(s, ast.Assign) and len(s.targets) == 1 and src(s.targets[0]) == "self.subnets" \
           and lst and src(s.value) == lst:
            closed = True
            continue
        raise Untranslatable(f"_generate_subnets: statement '{src(s)[:80]}' is outside the fragment")
    if not closed or not segs:
        raise Untranslatable("_generate_subnets: no 'self.subnets = <list>' at the end")
    body = "".join(f"  let {n} := {e} in\n" for n, e in lets) + "  " + "\n  ++ ".join(segs) + "."
    return ("Definition tr_gen_subnets (num_hosts : Z) : list Z :=\n" + body + "\n")


def main():
    out = os.path.join(os.environ.get("VERIF_COQ", "/verif/coq"), "gen", "TrGen.v")
    try:
        text = t7_subnets()
    except Untranslatable as e:
        print(f"UNTRANSLATABLE\nT7 _generate_subnets: {e}")
        sys.exit(3)
    except (SyntaxError, OSError, IndexError) as e:
        print(f"UNTRANSLATABLE\nT7 _generate_subnets: {e!r}")
        sys.exit(3)
    os.makedirs(os.path.dirname(out), exist_ok=True)
    with open(out, "w") as f:
        f.write("(* regenerated from /repo's source by translator/translate_gen.py on every run *)\n"
                "From Coq Require Import ZArith List Bool.\nImport ListNotations.\nOpen Scope Z_scope.\n\n"
                "(* math.ceil(a / b) on integers *)\nDefinition cdiv (a b : Z) : Z := - ((- a) / b).\n\n"
                "(* T7 ScenarioGenerator._generate_subnets *)\n" + text)
    print("translated: " + out)


if __name__ == "__main__":
    main()
