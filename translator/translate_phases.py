#!/usr/bin/env python3
"""Level-2 translator, eleventh part (T14): the phase sequence of ScenarioGenerator.generate -- which
`self._generate_*` step runs after which, where the seed is applied, which of the two host generators the
`uniform` flag selects -- fail-closed.  Writes coq/gen/TrPhases.v.

The order matters because every drawing phase reads NumPy's global generator: the model threads one draw
stream through the phases in a fixed order, and the tie lemma (tie/TieT14.v) shows that interpreting the
regenerated phase list gives the model's `generate` for every parameter set."""
import ast
import os
import sys

sys.path.insert(0, os.path.dirname(os.path.abspath(__file__)))
from translate import REPO, Untranslatable, src, get_function  # noqa: E402

PATH = f"{REPO}/nasim/scenarios/generator.py"

# call -> (phase constructor, exact argument text)
CALLS = {
    "_generate_subnets": ("PhSubnets", "num_hosts"),
    "_generate_topology": ("PhTopology", ""),
    "_generate_address_space_bounds": ("PhBounds", "address_space_bounds"),
    "_generate_os": ("PhOs", "num_os"),
    "_generate_services": ("PhServices", "num_services"),
    "_generate_processes": ("PhProcesses", "num_processes"),
    "_generate_exploits": ("PhExploits", "num_exploits,exploit_cost,exploit_probs"),
    "_generate_privescs": ("PhPrivescs", "num_privescs,privesc_cost,privesc_probs"),
    "_generate_sensitive_hosts": ("PhSensitive", "r_sensitive,r_user,random_goal"),
    "_ensure_host_vulnerability": ("PhEnsure", ""),
    "_generate_firewall": ("PhFirewall", "restrictiveness"),
}
# plain stores of a parameter under the attribute of the same name (no draw, no computation)
STORES = {"service_scan_cost", "os_scan_cost", "subnet_scan_cost",
          "process_scan_cost", "step_limit", "name"}
DEFAULTS = {"ifnum_exploitsisNone:num_exploits=num_services", "ifnum_privescsisNone:num_privescs=num_processes"}


def norm(t):
    return "".join(t.split())


def self_call(s):
    """`self.<name>(<args>)` as an expression statement -> (name, normalised argument text)"""
    if not (isinstance(s, ast.Expr) and isinstance(s.value, ast.Call)):
        return None
    c = s.value
    if not (isinstance(c.func, ast.Attribute) and isinstance(c.func.value, ast.Name) and c.func.value.id == "self"):
        return None
    if c.keywords:
        raise Untranslatable(f"generate: keyword arguments in {src(s)!r}")
    return c.func.attr, ",".join(norm(src(a)) for a in c.args)


def t14():
    f = get_function(PATH, "ScenarioGenerator", "generate")
    body = [s for s in f.body if not (isinstance(s, ast.Expr) and isinstance(s.value, ast.Constant))]
    phases = []
    seeded_at = None
    returned = False
    for s in body:
        if returned:
            raise Untranslatable("generate: statements after the return")
        if isinstance(s, ast.Assert):
            continue        # the documented parameter domain; the correspondence check decides it on real calls
        t = norm(src(s))
        if t == "ifseedisnotNone:np.random.seed(seed)":
            if seeded_at is not None:
                raise Untranslatable("generate: the seed is applied twice")
            seeded_at = len(phases)
            continue
        if t in DEFAULTS:
            if any(p in ("PhExploits", "PhPrivescs") for p in phases):
                raise Untranslatable("generate: a default is filled in after the phase that reads it")
            continue
        if isinstance(s, ast.If) and norm(src(s.test)) == "nameisNone" and not s.orelse and len(s.body) == 1 \
                and isinstance(s.body[0], ast.Assign) and norm(src(s.body[0].targets[0])) == "name" \
                and isinstance(s.body[0].value, (ast.JoinedStr, ast.Constant)):
            continue        # the scenario's display name: a string built from the parameters
        if t == "self.base_host_value=base_host_value":
            phases.append("PhBaseValue")        # read by the host phase (a host's value)
            continue
        if t == "self.host_discovery_value=host_discovery_value":
            phases.append("PhDiscValue")
            continue
        if isinstance(s, ast.Assign) and len(s.targets) == 1 and isinstance(s.targets[0], ast.Attribute) \
                and isinstance(s.targets[0].value, ast.Name) and s.targets[0].value.id == "self" \
                and isinstance(s.value, ast.Name) and s.targets[0].attr == s.value.id and s.value.id in STORES:
            continue
        if isinstance(s, ast.If) and norm(src(s.test)) == "uniform":
            if [norm(src(x)) for x in s.body] != ["self._generate_uniform_hosts()"] or \
               [norm(src(x)) for x in s.orelse] != ["self._generate_correlated_hosts(alpha_H,alpha_V,lambda_V)"]:
                raise Untranslatable("generate: expected 'if uniform: self._generate_uniform_hosts() else: "
                                     "self._generate_correlated_hosts(alpha_H, alpha_V, lambda_V)'")
            phases.append("PhHosts")
            continue
        if t == "returnself._construct_scenario()":
            returned = True
            continue
        c = self_call(s)
        if c is not None and c[0] in CALLS:
            ph, want = CALLS[c[0]]
            if c[1] != want:
                raise Untranslatable(f"generate: {c[0]} is called with ({c[1]}) instead of ({want})")
            phases.append(ph)
            continue
        raise Untranslatable(f"generate: statement outside the translated fragment: {src(s)[:80]!r}")
    if not returned:
        raise Untranslatable("generate: no 'return self._construct_scenario()'")
    if seeded_at is None:
        raise Untranslatable("generate: no 'if seed is not None: np.random.seed(seed)'")
    # every draw of this module goes through numpy's global generator (the one the seed was given to)
    tree = ast.parse(open(PATH).read())
    for n in ast.walk(tree):
        if isinstance(n, (ast.Import, ast.ImportFrom)):
            names = [a.name for a in n.names] + ([n.module] if isinstance(n, ast.ImportFrom) and n.module else [])
            if any(x.split(".")[0] in ("random", "secrets", "time", "uuid", "os") for x in names):
                raise Untranslatable(f"generator.py imports {names}: a source of values outside numpy's global generator")
        if isinstance(n, ast.Attribute) and n.attr in ("default_rng", "RandomState", "Generator", "urandom"):
            raise Untranslatable(f"generator.py uses {src(n)}: a generator other than numpy's global one")
    drawing = {"PhExploits", "PhPrivescs", "PhSensitive", "PhHosts", "PhEnsure", "PhFirewall"}
    before = [p for p in phases[:seeded_at] if p in drawing]
    out = ("Inductive phase := PhSubnets | PhTopology | PhBounds | PhOs | PhServices | PhProcesses | PhExploits\n"
           "  | PhPrivescs | PhSensitive | PhBaseValue | PhDiscValue | PhHosts | PhEnsure | PhFirewall.\n\n"
           "Definition tr_phases : list phase :=\n  [" + "; ".join(phases) + "].\n\n"
           "(* phases that draw and run BEFORE the seed is applied (must be none) *)\n"
           "Definition tr_drawn_before_seed : list phase :=\n  [" + "; ".join(before) + "].\n")
    return out


def main():
    out = os.path.join(os.environ.get("VERIF_COQ", "/verif/coq"), "gen", "TrPhases.v")
    try:
        text = t14()
    except Untranslatable as e:
        print(f"UNTRANSLATABLE\nT14: {e}")
        sys.exit(3)
    except (SyntaxError, OSError, IndexError, StopIteration) as e:
        print(f"UNTRANSLATABLE\nT14: {e!r}")
        sys.exit(3)
    os.makedirs(os.path.dirname(out), exist_ok=True)
    with open(out, "w") as f:
        f.write("(* regenerated from /repo's source by translator/translate_phases.py on every run *)\n"
                "From Coq Require Import List.\nImport ListNotations.\n\n(* T14 generator: phase sequence of generate() *)\n" + text)
    print("translated: " + out)


if __name__ == "__main__":
    main()
