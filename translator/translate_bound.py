#!/usr/bin/env python3
"""Level-2 translator, fifth part (T8): NASimEnv.get_score_upper_bound and the two totals it adds up
(Network.get_total_sensitive_host_value, Network.get_total_discovery_value), fail-closed.
Writes coq/gen/TrBound.v:
  tr_bound S D H      the accumulator expression over the three named calls
  tr_sens_term v      what one sensitive host adds to the first total
  tr_disc_term dv     what one host adds to the second total"""
import ast
import os
import sys

sys.path.insert(0, os.path.dirname(os.path.abspath(__file__)))
from translate import REPO, Untranslatable, src, get_function  # noqa: E402

ATOMS = {"self.network.get_total_sensitive_host_value()": "S", "self.network.get_total_discovery_value()": "D",
         "self.network.get_minimal_hops()": "H"}


def body_of(f):
    return [s for s in f.body if not (isinstance(s, ast.Expr) and isinstance(s.value, ast.Constant))]


def expr(node, atoms):
    t = src(node)
    if t in atoms:
        return atoms[t]
    if isinstance(node, ast.Constant) and isinstance(node.value, int) and not isinstance(node.value, bool):
        return str(node.value)
    if isinstance(node, ast.BinOp) and isinstance(node.op, (ast.Add, ast.Sub)):
        return f"({expr(node.left, atoms)} {'+' if isinstance(node.op, ast.Add) else '-'} {expr(node.right, atoms)})"
    if isinstance(node, ast.Call) and src(node.func) == "max" and len(node.args) == 2 and not node.keywords:
        return f"(Z.max {expr(node.args[0], atoms)} {expr(node.args[1], atoms)})"
    raise Untranslatable(f"expression '{t}' is outside the vocabulary")


def t8_bound():
    f = get_function(f"{REPO}/nasim/envs/environment.py", "NASimEnv", "get_score_upper_bound")
    b = body_of(f)
    acc, name = None, None
    for s in b[:-1]:
        if isinstance(s, ast.Assign) and len(s.targets) == 1 and isinstance(s.targets[0], ast.Name) and acc is None:
            name, acc = s.targets[0].id, expr(s.value, ATOMS)
        elif isinstance(s, ast.AugAssign) and isinstance(s.op, (ast.Add, ast.Sub)) and acc is not None \
                and src(s.target) == name:
            acc = f"({acc} {'+' if isinstance(s.op, ast.Add) else '-'} {expr(s.value, ATOMS)})"
        else:
            raise Untranslatable(f"get_score_upper_bound: statement '{src(s)}' is outside the fragment")
    if not (isinstance(b[-1], ast.Return) and src(b[-1].value) == name):
        raise Untranslatable("get_score_upper_bound: must end by returning the accumulator")
    return f"Definition tr_bound (S D H : Z) : Z := {acc}.\n"


def total(fname, iter_text, item, atoms, out_name):
    f = get_function(f"{REPO}/nasim/envs/network.py", "Network", fname)
    b = body_of(f)
    if len(b) != 3 or src(b[0]).replace(" ", "") != "total=0" or src(b[2]).replace(" ", "") != "returntotal":
        raise Untranslatable(f"{fname}: expected total = 0 / loop / return total")
    loop = b[1]
    if not (isinstance(loop, ast.For) and src(loop.target) == item and src(loop.iter) == iter_text and not loop.orelse
            and len(loop.body) == 1 and isinstance(loop.body[0], ast.AugAssign) and isinstance(loop.body[0].op, ast.Add)
            and src(loop.body[0].target) == "total"):
        raise Untranslatable(f"{fname}: the loop must add one term per item of {iter_text}")
    return f"Definition {out_name} (x : Z) : Z := {expr(loop.body[0].value, atoms)}.\n"


def main():
    out = os.path.join(os.environ.get("VERIF_COQ", "/verif/coq"), "gen", "TrBound.v")
    try:
        text = t8_bound()
        text += total("get_total_sensitive_host_value", "self.sensitive_hosts.values()", "host_value",
                      {"host_value": "x"}, "tr_sens_term")
        text += total("get_total_discovery_value", "self.hosts.values()", "host", {"host.discovery_value": "x"},
                      "tr_disc_term")
    except Untranslatable as e:
        print(f"UNTRANSLATABLE\nT8: {e}")
        sys.exit(3)
    except (SyntaxError, OSError, IndexError) as e:
        print(f"UNTRANSLATABLE\nT8: {e!r}")
        sys.exit(3)
    os.makedirs(os.path.dirname(out), exist_ok=True)
    with open(out, "w") as f:
        f.write("(* regenerated from /repo's source by translator/translate_bound.py on every run *)\n"
                "From Coq Require Import ZArith.\nOpen Scope Z_scope.\n\n" + text)
    print("translated: " + out)


if __name__ == "__main__":
    main()
