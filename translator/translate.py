#!/usr/bin/env python3
"""Level-2 tie: a fail-closed translator from the Python source (ast) of the functions in which
a one-token edit flips a property, to Coq definitions written to coq/gen/Tr.v on every run.

  T1  index arithmetic: HostVector._update_vector_idxs, Scenario.get_state_dims /
      get_observation_dims / get_action_space_size, ParameterisedActionSpace nvec
      -> shallow Gallina arithmetic over Z (equivalence lemmas closed by lia in gen/TieT1.v)
  T2  the gate cascade of Network.perform_action -> a boolean decision function over named
      atoms (equivalence with Gates.gate_outcome proved by case analysis in gen/TieT2.v)
  T3  NASimEnv.step's step-limit expression and NASimEnv.generative_step's reward / done

Anything the translator does not recognise (statement kind, expression shape, call text
outside the closed vocabulary) is a translation failure: exit status 3 and a message; it never
guesses."""
import ast
import sys
import os
import textwrap

REPO = os.environ.get("NASIM_REPO", "/repo")


class Untranslatable(Exception):
    pass


def src(node):
    """source text of a node, normalised so that tuple parentheses (which ast.unparse prints
    differently across Python versions) do not matter"""
    t = ast.unparse(node)
    if isinstance(node, ast.Tuple) and t.startswith("(") and t.endswith(")"):
        t = t[1:-1]
    if isinstance(node, ast.Return) and isinstance(node.value, ast.Tuple):
        t = "return " + src(node.value)
    if isinstance(node, ast.Assign) and len(node.targets) == 1 and isinstance(node.targets[0], ast.Tuple):
        t = src(node.targets[0]) + " = " + ast.unparse(node.value)
    return t


def get_function(path, cls, name):
    tree = ast.parse(open(path).read())
    for node in tree.body:
        if isinstance(node, ast.ClassDef) and node.name == cls:
            for f in node.body:
                if isinstance(f, ast.FunctionDef) and f.name == name:
                    return f
    raise Untranslatable(f"{path}: {cls}.{name} not found")


# ---------------------------------------------------------------------------
# T1: arithmetic
def arith(node, env):
    """python arithmetic expression -> Coq Z expression text"""
    if isinstance(node, ast.Constant) and isinstance(node.value, int) and not isinstance(node.value, bool):
        return str(node.value)
    if isinstance(node, ast.BinOp) and isinstance(node.op, (ast.Add, ast.Sub, ast.Mult)):
        op = {ast.Add: "+", ast.Sub: "-", ast.Mult: "*"}[type(node.op)]
        return f"({arith(node.left, env)} {op} {arith(node.right, env)})"
    text = src(node)
    if text in env:
        return env[text]
    raise Untranslatable(f"arithmetic: cannot translate '{text}'")


def t1_vector_idxs():
    f = get_function(f"{REPO}/nasim/envs/host_vector.py", "HostVector", "_update_vector_idxs")
    env = {"cls.address_space_bounds[0]": "b0", "cls.address_space_bounds[1]": "b1",
           "cls.num_os": "nos", "cls.num_services": "nsrv", "cls.num_processes": "nproc"}
    lets, order = [], []
    for st in f.body:
        if isinstance(st, ast.Expr) and isinstance(st.value, ast.Constant):
            continue
        if not (isinstance(st, ast.Assign) and len(st.targets) == 1 and isinstance(st.targets[0], ast.Attribute)
                and src(st.targets[0].value) == "cls"):
            raise Untranslatable("_update_vector_idxs: unexpected statement " + src(st))
        name = st.targets[0].attr
        v = "v" + name
        lets.append(f"  let {v} := {arith(st.value, env)} in")
        env["cls." + name] = v
        order.append(name)
    want = ["_subnet_address_idx", "_host_address_idx", "_compromised_idx", "_reachable_idx", "_discovered_idx",
            "_value_idx", "_discovery_value_idx", "_access_idx", "_os_start_idx", "_service_start_idx",
            "_process_start_idx", "state_size"]
    if order != want:
        raise Untranslatable(f"_update_vector_idxs assigns {order}, expected {want}")
    body = "\n".join(lets) + "\n  [" + "; ".join("v" + n for n in want) + "]"
    return f"Definition tr_vector_idxs (b0 b1 nos nsrv nproc : Z) : list Z :=\n{body}.\n"


def t1_scenario_dims():
    out = []
    f = get_function(f"{REPO}/nasim/scenarios/scenario.py", "Scenario", "get_state_dims")
    env = {"self.address_space_bounds[0]": "b0", "self.address_space_bounds[1]": "b1", "self.num_os": "nos",
           "self.num_services": "nsrv", "self.num_processes": "nproc", "len(self.hosts)": "nhosts"}
    lets = []
    ret = None
    for st in f.body:
        if isinstance(st, ast.Assign) and len(st.targets) == 1 and isinstance(st.targets[0], ast.Name):
            lets.append(f"  let {st.targets[0].id} := {arith(st.value, env)} in")
            env[st.targets[0].id] = st.targets[0].id
        elif isinstance(st, ast.Return) and isinstance(st.value, ast.Tuple) and len(st.value.elts) == 2:
            ret = f"  ({arith(st.value.elts[0], env)}, {arith(st.value.elts[1], env)})"
        elif isinstance(st, ast.Expr) and isinstance(st.value, ast.Constant):
            continue
        else:
            raise Untranslatable("get_state_dims: unexpected statement " + src(st))
    if ret is None:
        raise Untranslatable("get_state_dims: no return")
    out.append("Definition tr_state_dims (b0 b1 nos nsrv nproc nhosts : Z) : Z * Z :=\n" + "\n".join(lets) + "\n" + ret + ".\n")
    f = get_function(f"{REPO}/nasim/scenarios/scenario.py", "Scenario", "get_observation_dims")
    env = {"state_dims[0]": "(fst sd)", "state_dims[1]": "(snd sd)"}
    ok = (len(f.body) == 2 and isinstance(f.body[0], ast.Assign) and src(f.body[0]) == "state_dims = self.get_state_dims()"
          and isinstance(f.body[1], ast.Return) and isinstance(f.body[1].value, ast.Tuple))
    if not ok:
        raise Untranslatable("get_observation_dims: unexpected body")
    e = f.body[1].value.elts
    out.append(f"Definition tr_obs_dims (sd : Z * Z) : Z * Z := ({arith(e[0], env)}, {arith(e[1], env)}).\n")
    f = get_function(f"{REPO}/nasim/scenarios/scenario.py", "Scenario", "get_action_space_size")
    env = {"len(self.exploits)": "nexp", "len(self.privescs)": "npe", "len(self.hosts)": "nhosts"}
    lets, ret = [], None
    for st in f.body:
        if isinstance(st, ast.Assign) and len(st.targets) == 1 and isinstance(st.targets[0], ast.Name):
            lets.append(f"  let {st.targets[0].id} := {arith(st.value, env)} in")
            env[st.targets[0].id] = st.targets[0].id
        elif isinstance(st, ast.Return):
            ret = "  " + arith(st.value, env)
        else:
            raise Untranslatable("get_action_space_size: unexpected statement " + src(st))
    out.append("Definition tr_action_space_size (nexp npe nhosts : Z) : Z :=\n" + "\n".join(lets) + "\n" + ret + ".\n")
    # nvec
    f = get_function(f"{REPO}/nasim/envs/action.py", "ParameterisedActionSpace", "__init__")
    nv = [st for st in f.body if isinstance(st, ast.Assign) and src(st.targets[0]) == "nvec"]
    if len(nv) != 1 or not isinstance(nv[0].value, ast.List):
        raise Untranslatable("ParameterisedActionSpace.__init__: nvec assignment not found")
    env = {"len(self.action_types)": "6", "len(self.scenario.subnets)": "nsub", "max(self.scenario.subnets)": "maxsub",
           "self.scenario.num_os": "nos", "self.scenario.num_services": "nsrv", "self.scenario.num_processes": "nproc"}
    tree = ast.parse(open(f"{REPO}/nasim/envs/action.py").read())
    for node in tree.body:
        if isinstance(node, ast.ClassDef) and node.name == "ParameterisedActionSpace":
            at = [s for s in node.body if isinstance(s, ast.Assign) and src(s.targets[0]) == "action_types"]
            if len(at) != 1 or [src(e) for e in at[0].value.elts] != ["Exploit", "PrivilegeEscalation", "ServiceScan",
                                                                       "OSScan", "SubnetScan", "ProcessScan"]:
                raise Untranslatable("ParameterisedActionSpace.action_types changed")
    out.append("Definition tr_nvec (nsub maxsub nos nsrv nproc : Z) : list Z :=\n  ["
               + "; ".join(arith(e, env) for e in nv[0].value.elts) + "].\n")
    return "".join(out)


# ---------------------------------------------------------------------------
# T2: gate cascade of Network.perform_action
ATOMS = {
    "action.is_noop()": "at_noop x",
    "state.host_reachable(action.target)": "at_reach x",
    "state.host_discovered(action.target)": "at_disc x",
    "action.is_remote()": "at_remote x",
    "self.has_required_remote_permission(state, action)": "at_perm x",
    "action.is_exploit()": "at_exploit x",
    "self.traffic_permitted(state, action.target, action.service)": "at_traffic x",
    "action.is_privilege_escalation()": "at_privesc x",
    "state.host_compromised(action.target)": "at_comp x",
    "np.random.rand() >= action.prob": "at_chance_ge x",
    "action.is_subnet_scan()": "at_subscan x",
}
RESULTS = {
    "ActionResult(True)": "ONoop",
    "ActionResult(False, 0.0, connection_error=True)": "OConn",
    "ActionResult(False, 0.0, permission_error=True)": "OPerm",
    "ActionResult(False, 0.0, undefined_error=True)": "OUndef",
}
TAIL = ["t_host = state.get_host(action.target)",
        "next_host_state, action_obs = t_host.perform_action(action)",
        "next_state.update_host(action.target, next_host_state)",
        "self._update(next_state, action, action_obs)",
        "return next_state, action_obs"]


def bexpr(node, alias):
    if isinstance(node, ast.BoolOp):
        op = " && " if isinstance(node.op, ast.And) else " || "
        return "(" + op.join(bexpr(v, alias) for v in node.values) + ")"
    if isinstance(node, ast.UnaryOp) and isinstance(node.op, ast.Not):
        return f"negb {bexpr(node.operand, alias)}"
    text = src(node)
    if isinstance(node, ast.Name) and text in alias:
        return alias[text]
    if text in ATOMS:
        return f"({ATOMS[text]})"
    raise Untranslatable(f"perform_action: condition '{text}' is outside the vocabulary")


def gate_block(stmts, alias, results, cont):
    """translate a statement list to a Coq outcome expression; [cont] yields the expression for
    whatever follows the list (raises when control would fall off the function)"""
    for i, st in enumerate(stmts):
        rest = stmts[i + 1:]
        if isinstance(st, ast.Expr) and isinstance(st.value, ast.Constant):
            continue
        if isinstance(st, ast.Assert):
            continue                        # argument sanity assertions: no effect on valid actions
        if isinstance(st, ast.Pass):
            continue
        if isinstance(st, ast.Assign) and len(st.targets) == 1:
            tgt, val = src(st.targets[0]), src(st.value)
            if tgt == "tgt_subnet, tgt_id" and val == "action.target":
                continue
            if tgt == "next_state" and val == "state.copy()":
                continue
            if tgt == "result" and val in RESULTS:
                results = dict(results, result=RESULTS[val])
                continue
            if isinstance(st.targets[0], ast.Name) and val in ATOMS:
                alias = dict(alias, **{tgt: f"({ATOMS[val]})"})
                continue
            if [src(s) for s in stmts[i:]] == TAIL:
                return "OHost"
            raise Untranslatable(f"perform_action: assignment '{src(st)}' is outside the vocabulary")
        if isinstance(st, ast.Return):
            text = src(st.value)
            if text == "self._perform_subnet_scan(next_state, action)":
                return "OScan"
            if isinstance(st.value, ast.Tuple) and len(st.value.elts) == 2 and src(st.value.elts[0]) == "next_state":
                r = src(st.value.elts[1])
                if r in RESULTS:
                    return RESULTS[r]
                if r in results:
                    return results[r]
            raise Untranslatable(f"perform_action: return '{text}' is outside the vocabulary")
        if isinstance(st, ast.If):
            cond = bexpr(st.test, alias)
            after = lambda rest=rest, alias=alias, results=results: gate_block(rest, alias, results, cont)  # noqa: E731
            then = gate_block(st.body, alias, results, after)
            els = gate_block(st.orelse, alias, results, after)
            return f"(if {cond} then {then} else {els})"
        raise Untranslatable(f"perform_action: statement '{src(st)[:60]}' is outside the fragment")
    return cont()


def t2_perform_action():
    f = get_function(f"{REPO}/nasim/envs/network.py", "Network", "perform_action")
    if [a.arg for a in f.args.args] != ["self", "state", "action"]:
        raise Untranslatable("perform_action: signature changed")
    def off_the_end():
        raise Untranslatable("perform_action: control falls off the end of the function")
    body = gate_block(f.body, {}, {}, off_the_end)
    return f"Definition tr_perform_action (x : atoms) : outcome :=\n  {body}.\n"


# ---------------------------------------------------------------------------
# T3: environment step / generative step arithmetic
def t3_env():
    f = get_function(f"{REPO}/nasim/envs/environment.py", "NASimEnv", "step")
    lim = [st for st in f.body if isinstance(st, ast.Assign) and src(st.targets[0]) == "step_limit_reached"]
    if len(lim) != 1:
        raise Untranslatable("step: step_limit_reached assignment not found")
    e = lim[0].value
    want = "self.scenario.step_limit is not None and self.steps >= self.scenario.step_limit"
    if src(e) != want:
        raise Untranslatable(f"step: step-limit expression is '{src(e)}'")
    inc = [st for st in f.body if isinstance(st, ast.AugAssign) and src(st) == "self.steps += 1"]
    order = [src(st) for st in f.body]
    if len(inc) != 1 or order.index("self.steps += 1") > order.index(src(lim[0])):
        raise Untranslatable("step: the counter must be incremented exactly once, before the limit test")
    ret = [st for st in f.body if isinstance(st, ast.Return)]
    if len(ret) != 1 or src(ret[0].value) != "obs, reward, done, step_limit_reached, info":
        raise Untranslatable("step: return tuple changed")
    g = get_function(f"{REPO}/nasim/envs/environment.py", "NASimEnv", "generative_step")
    texts = [src(st) for st in g.body]
    need = ["done = self.goal_reached(next_state)", "reward = action_obs.value - action.cost",
            "return next_state, obs, reward, done, action_obs.info()"]
    for n in need:
        if n not in texts:
            raise Untranslatable(f"generative_step: expected statement '{n}'")
    return ("Definition tr_limit_reached (limit : option nat) (steps_after_increment : nat) : bool :=\n"
            "  match limit with Some l => Nat.leb l steps_after_increment | None => false end.\n"
            "Definition tr_reward (value cost : Z) : Z := value - cost.\n")


def main():
    out = os.path.join(os.environ.get("VERIF_COQ", "/verif/coq"), "gen", "Tr.v")
    parts, failed = [], []
    for name, fn in (("T1 vector indices", t1_vector_idxs), ("T1 scenario dims", t1_scenario_dims),
                     ("T2 perform_action", t2_perform_action), ("T3 environment", t3_env)):
        try:
            parts.append(f"(* {name} *)\n" + fn())
        except Untranslatable as e:
            failed.append(f"{name}: {e}")
        except (SyntaxError, OSError) as e:
            failed.append(f"{name}: {e!r}")
    if failed:
        print("UNTRANSLATABLE\n" + "\n".join(failed))
        sys.exit(3)
    os.makedirs(os.path.dirname(out), exist_ok=True)
    with open(out, "w") as f:
        f.write("(* regenerated from /repo's source by translator/translate.py on every run *)\n"
                "From NasimV Require Import Gates.\nOpen Scope Z_scope.\n\n" + "\n".join(parts))
    print("translated: " + out)


if __name__ == "__main__":
    main()
