#!/usr/bin/env python3
"""Level-2 translator, seventh part (T10): Observation.get_space_bounds (the low/high of the observation
space) and the two min/max loops it reads (Scenario.host_value_bounds, host_discovery_value_bounds),
fail-closed.  Writes coq/gen/TrSpace.v; numeric literals are rendered as multiples of `one` (the model
counts in 1/64)."""
import ast
import os
import sys

sys.path.insert(0, os.path.dirname(os.path.abspath(__file__)))
from translate import REPO, Untranslatable, src, get_function  # noqa: E402

ATOMS = {"value_bounds[0]": "VMIN", "value_bounds[1]": "VMAX", "discovery_bounds[0]": "DMIN",
         "discovery_bounds[1]": "DMAX", "AccessLevel.ROOT": "ROOT", "scenario.address_space_bounds[0]": "B0",
         "scenario.address_space_bounds[1]": "B1"}


def norm(t):
    return "".join(t.split())


def nary(call, fn):
    if not (isinstance(call, ast.Call) and src(call.func) == fn and not call.keywords and call.args):
        raise Untranslatable(f"expected {fn}(...) but found '{src(call)[:60]}'")
    out = []
    for a in call.args:
        t = src(a)
        if t in ATOMS:
            out.append(ATOMS[t])
        elif isinstance(a, ast.Constant) and isinstance(a.value, int) and not isinstance(a.value, bool):
            out.append(f"({a.value} * one)")
        else:
            raise Untranslatable(f"argument '{t}' of {fn} is outside the vocabulary")
    z = "Z.min" if fn == "min" else "Z.max"
    e = out[-1]
    for x in reversed(out[:-1]):
        e = f"({z} {x} {e})"
    return e


def bounds_loop(name, attr):
    tree = ast.parse(open(f"{REPO}/nasim/scenarios/scenario.py").read())
    cls = next(n for n in tree.body if isinstance(n, ast.ClassDef) and n.name == "Scenario")
    f = next((n for n in cls.body if isinstance(n, ast.FunctionDef) and n.name == name), None)
    if f is None:
        raise Untranslatable(f"Scenario.{name} not found")
    b = [s for s in f.body if not (isinstance(s, ast.Expr) and isinstance(s.value, ast.Constant))]
    want = ["min_value=math.inf", "max_value=-math.inf",
            f"forhostinself.hosts.values():min_value=min(min_value,host.{attr})max_value=max(max_value,host.{attr})",
            "return(min_value,max_value)"]
    got = [norm(src(s)).replace("\n", "") for s in b]
    got[-1] = got[-1].replace("returnmin_value,max_value", "return(min_value,max_value)")
    if got != want:
        raise Untranslatable(f"Scenario.{name}: the min/max loop changed: {got}")


def t10():
    f = get_function(f"{REPO}/nasim/envs/observation.py", "Observation", "get_space_bounds")
    b = [s for s in f.body if not (isinstance(s, ast.Expr) and isinstance(s.value, ast.Constant))]
    if len(b) != 5:
        raise Untranslatable("get_space_bounds: expected two bound reads, low, high, return")
    if norm(src(b[0])) != "value_bounds=scenario.host_value_bounds" \
       or norm(src(b[1])) != "discovery_bounds=scenario.host_discovery_value_bounds":
        raise Untranslatable("get_space_bounds: the value / discovery bounds are read differently")
    if not (isinstance(b[2], ast.Assign) and src(b[2].targets[0]) == "obs_low"
            and isinstance(b[3], ast.Assign) and src(b[3].targets[0]) == "obs_high"
            and norm(src(b[4])) in ("return(obs_low,obs_high)", "returnobs_low,obs_high")):
        raise Untranslatable("get_space_bounds: expected obs_low = ..., obs_high = ..., return (obs_low, obs_high)")
    low, high = nary(b[2].value, "min"), nary(b[3].value, "max")
    bounds_loop("host_value_bounds", "value")
    bounds_loop("host_discovery_value_bounds", "discovery_value")
    return ("Definition tr_obs_low (one VMIN VMAX DMIN DMAX ROOT B0 B1 : Z) : Z :=\n  " + low + ".\n"
            "Definition tr_obs_high (one VMIN VMAX DMIN DMAX ROOT B0 B1 : Z) : Z :=\n  " + high + ".\n")


def main():
    out = os.path.join(os.environ.get("VERIF_COQ", "/verif/coq"), "gen", "TrSpace.v")
    try:
        text = t10()
    except Untranslatable as e:
        print(f"UNTRANSLATABLE\nT10: {e}")
        sys.exit(3)
    except (SyntaxError, OSError, IndexError, StopIteration) as e:
        print(f"UNTRANSLATABLE\nT10: {e!r}")
        sys.exit(3)
    os.makedirs(os.path.dirname(out), exist_ok=True)
    with open(out, "w") as f:
        f.write("(* regenerated from /repo's source by translator/translate_bounds.py on every run *)\n"
                "From Coq Require Import ZArith.\nOpen Scope Z_scope.\n\n(* T10 Observation.get_space_bounds *)\n" + text)
    print("translated: " + out)


if __name__ == "__main__":
    main()
