#!/usr/bin/env python3
"""Level-2 translator, eighth part (T11): the search loops of Network that decide C02's network-level
preconditions and C06's goal -- has_required_remote_permission, traffic_permitted,
subnet_traffic_permitted, all_sensitive_hosts_compromised -- fail-closed.  Writes coq/gen/TrSearch.v.

Shape accepted for a search: zero or more `if COND: return True` in front, ONE loop over
self.address_space whose body is a run of `if COND: continue` closed by `if COND: return True`, then
`return False`.  Conditions are and/or/not over a closed table of call texts (the atoms)."""
import ast
import os
import sys

sys.path.insert(0, os.path.dirname(os.path.abspath(__file__)))
from translate import REPO, Untranslatable, src, get_function  # noqa: E402

PATH = f"{REPO}/nasim/envs/network.py"


def norm(t):
    return "".join(t.split())


def body_of(f):
    return [s for s in f.body if not (isinstance(s, ast.Expr) and isinstance(s.value, ast.Constant))]


def boolexp(node, atoms):
    t = norm(src(node))
    if t in atoms:
        return atoms[t]
    if isinstance(node, ast.UnaryOp) and isinstance(node.op, ast.Not):
        return f"(negb {boolexp(node.operand, atoms)})"
    if isinstance(node, ast.BoolOp):
        op = " && " if isinstance(node.op, ast.And) else " || "
        return "(" + op.join(boolexp(v, atoms) for v in node.values) + ")"
    raise Untranslatable(f"condition '{src(node)}' is outside the vocabulary")


def is_ret(s, val):
    return isinstance(s, ast.Return) and isinstance(s.value, ast.Constant) and s.value.value is val


def search(fname, loopvar, early_atoms, src_atoms, args_early, args_src, out_name):
    f = get_function(PATH, "Network", fname)
    b = body_of(f)
    early = []
    i = 0
    while i < len(b) and isinstance(b[i], ast.If) and not b[i].orelse and len(b[i].body) == 1 and is_ret(b[i].body[0], True):
        early.append(boolexp(b[i].test, early_atoms))
        i += 1
    if len(b) != i + 2 or not is_ret(b[-1], False):
        raise Untranslatable(f"{fname}: expected early exits, one loop, return False")
    loop = b[i]
    if not (isinstance(loop, ast.For) and src(loop.target) == loopvar and src(loop.iter) == "self.address_space"
            and not loop.orelse and loop.body):
        raise Untranslatable(f"{fname}: the loop must run over self.address_space as '{loopvar}'")
    body = "false"
    last = loop.body[-1]
    if not (isinstance(last, ast.If) and not last.orelse and len(last.body) == 1 and is_ret(last.body[0], True)):
        raise Untranslatable(f"{fname}: the loop body must end with 'if COND: return True'")
    body = f"(if {boolexp(last.test, src_atoms)} then true else false)"
    for s in reversed(loop.body[:-1]):
        if not (isinstance(s, ast.If) and not s.orelse and len(s.body) == 1 and isinstance(s.body[0], ast.Continue)):
            raise Untranslatable(f"{fname}: statement '{src(s)[:60]}' in the loop is not 'if COND: continue'")
        body = f"(if {boolexp(s.test, src_atoms)} then false else {body})"
    e = "false" if not early else "(" + " || ".join(early) + ")"
    return (f"Definition {out_name}_early ({' '.join(args_early)} : bool) : bool := {e}.\n"
            f"Definition {out_name}_src ({' '.join(args_src)} : bool) : bool :=\n  {body}.\n")


def t11():
    out = search("has_required_remote_permission", "src_addr",
                 {"self.subnet_public(action.target[0])": "pub"},
                 {"state.host_compromised(src_addr)": "comp", "action.is_scan()": "is_scan",
                  "self.subnets_connected(src_addr[0],action.target[0])": "conn", "action.is_exploit()": "is_exploit",
                  "self.subnet_traffic_permitted(src_addr[0],action.target[0],action.service)": "sub_ok",
                  "state.host_has_access(src_addr,action.req_access)": "has_acc"},
                 ["pub"], ["comp", "is_scan", "conn", "is_exploit", "sub_ok", "has_acc"], "tr_perm")
    out += search("traffic_permitted", "src_addr",
                  {"self.subnet_public(host_addr[0])": "pub",
                   "self.subnet_traffic_permitted(INTERNET,host_addr[0],service)": "inet_ok"},
                  {"state.host_compromised(src_addr)": "comp",
                   "self.subnet_traffic_permitted(src_addr[0],host_addr[0],service)": "sub_ok",
                   "self.host_traffic_permitted(src_addr,host_addr,service)": "host_ok"},
                  ["pub", "inet_ok"], ["comp", "sub_ok", "host_ok"], "tr_traffic")
    # subnet_traffic_permitted: a cascade of returns
    f = get_function(PATH, "Network", "subnet_traffic_permitted")
    b = body_of(f)
    want = ["ifsrc_subnet==dest_subnet:returnTrue", "ifnotself.subnets_connected(src_subnet,dest_subnet):returnFalse",
            "returnserviceinself.firewall[src_subnet,dest_subnet]"]
    got = [norm(src(s)).replace("self.firewall[(src_subnet,dest_subnet)]", "self.firewall[src_subnet,dest_subnet]") for s in b]
    if len(b) != 3 or got[2] != want[2]:
        raise Untranslatable("subnet_traffic_permitted: the final firewall lookup changed: " + " | ".join(got))
    atoms = {"src_subnet==dest_subnet": "same", "self.subnets_connected(src_subnet,dest_subnet)": "conn"}
    casc = "fw"
    for s in reversed(b[:2]):
        if not (isinstance(s, ast.If) and not s.orelse and len(s.body) == 1 and (is_ret(s.body[0], True) or is_ret(s.body[0], False))):
            raise Untranslatable("subnet_traffic_permitted: expected 'if COND: return True/False'")
        casc = f"(if {boolexp(s.test, atoms)} then {'true' if is_ret(s.body[0], True) else 'false'} else {casc})"
    out += f"Definition tr_sub_permitted (same conn fw : bool) : bool :=\n  {casc}.\n"
    # the goal test: every sensitive address has ROOT
    f = get_function(PATH, "Network", "all_sensitive_hosts_compromised")
    b = body_of(f)
    if not (len(b) == 2 and isinstance(b[0], ast.For) and src(b[0].target) == "host_addr"
            and src(b[0].iter) == "self.sensitive_addresses" and not b[0].orelse and len(b[0].body) == 1
            and isinstance(b[0].body[0], ast.If) and not b[0].body[0].orelse and len(b[0].body[0].body) == 1
            and is_ret(b[0].body[0].body[0], False) and is_ret(b[1], True)):
        raise Untranslatable("all_sensitive_hosts_compromised: expected 'for host_addr in self.sensitive_addresses: "
                             "if COND: return False' then 'return True'")
    c = boolexp(b[0].body[0].test, {"state.host_has_access(host_addr,AccessLevel.ROOT)": "root"})
    out += f"Definition tr_goal_host (root : bool) : bool := negb {c}.\n"
    # the accessors the atoms stand for: State.host_* read one field of the host's row; has_access compares
    # levels; the host-level rule is "service not in the deny list recorded for that source"
    acc = {"host_reachable": "reachable", "host_compromised": "compromised", "host_discovered": "discovered"}
    for fn, field in acc.items():
        f = get_function(f"{REPO}/nasim/envs/state.py", "State", fn)
        b = body_of(f)
        if len(b) != 1 or norm(src(b[0])) != f"returnself.get_host(host_addr).{field}":
            raise Untranslatable(f"State.{fn}: expected 'return self.get_host(host_addr).{field}'")
    f = get_function(f"{REPO}/nasim/envs/state.py", "State", "host_has_access")
    b = body_of(f)
    if not (len(b) == 1 and isinstance(b[0], ast.Return) and isinstance(b[0].value, ast.Compare)
            and len(b[0].value.ops) == 1 and norm(src(b[0].value.left)) == "self.get_host(host_addr).access"
            and norm(src(b[0].value.comparators[0])) == "access_level"):
        raise Untranslatable("State.host_has_access: expected a comparison of the row's access with access_level")
    op = type(b[0].value.ops[0])
    cmp_ = {ast.GtE: "Nat.leb lvl acc", ast.Gt: "Nat.ltb lvl acc", ast.Eq: "Nat.eqb acc lvl",
            ast.LtE: "Nat.leb acc lvl", ast.Lt: "Nat.ltb acc lvl"}.get(op)
    if cmp_ is None:
        raise Untranslatable("State.host_has_access: comparison operator outside the fragment")
    out += f"Definition tr_has_access (acc lvl : nat) : bool := {cmp_}.\n"
    f = get_function(PATH, "Network", "host_traffic_permitted")
    if [norm(src(s)) for s in body_of(f)] != ["dest_host=self.hosts[dest_addr]",
                                              "returndest_host.traffic_permitted(src_addr,service)"]:
        raise Untranslatable("Network.host_traffic_permitted: expected delegation to the destination Host")
    f = get_function(f"{REPO}/nasim/scenarios/host.py", "Host", "traffic_permitted")
    b = body_of(f)
    if not (len(b) == 1 and isinstance(b[0], ast.Return) and isinstance(b[0].value, ast.Compare)
            and len(b[0].value.ops) == 1 and isinstance(b[0].value.ops[0], (ast.In, ast.NotIn))
            and norm(src(b[0].value.left)) == "service"
            and norm(src(b[0].value.comparators[0])) == "self.firewall.get(addr,[])"):
        raise Untranslatable("Host.traffic_permitted: expected 'service [not] in self.firewall.get(addr, [])'")
    out += ("Definition tr_host_permits (in_deny_list : bool) : bool := "
            + ("negb in_deny_list" if isinstance(b[0].value.ops[0], ast.NotIn) else "in_deny_list") + ".\n")
    return out


def main():
    out = os.path.join(os.environ.get("VERIF_COQ", "/verif/coq"), "gen", "TrSearch.v")
    try:
        text = t11()
    except Untranslatable as e:
        print(f"UNTRANSLATABLE\nT11: {e}")
        sys.exit(3)
    except (SyntaxError, OSError, IndexError) as e:
        print(f"UNTRANSLATABLE\nT11: {e!r}")
        sys.exit(3)
    os.makedirs(os.path.dirname(out), exist_ok=True)
    with open(out, "w") as f:
        f.write("(* regenerated from /repo's source by translator/translate_search.py on every run *)\n"
                "From Coq Require Import Bool.\n\n(* T11 search loops of Network *)\n" + text)
    print("translated: " + out)


if __name__ == "__main__":
    main()
